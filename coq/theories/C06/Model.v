(* C06/Model.v -- executable model of phylib's sparse-to-dense feature conversion.  No proofs here.
   phylib/io/array.py : _index_of
   phylib/io/model.py : from_sparse, TemplateModel.get_features, TemplateModel.get_template_features
                        (as repaired on branch fix-c06: same row resolution as get_features),
                        _project_pcs, compute_features, the assembly step of the waveform route of
                        get_features.

   Conventions.  Channel ids, spike ids, template ids and table entries are Z (the int32 cast of
   from_sparse / _index_of is not modelled: |values| < 2^31 is part of the regime).  A *cell* is an
   abstract token of type A: whatever sits in data[s, k, ...] (a scalar for template features, a
   vector of n_pcs values for pc features, any trailing block in general), so trailing dimensions
   come for free.  Positions inside an array are nat.  Where NumPy raises, the model returns an
   error constructor / None; no [nth _ _ default] is used on data.  Arrays are lists of rows. *)
From Coq Require Import ZArith List Bool Arith.
From PV Require Import Base.NpList.
Import ListNotations.
Open Scope Z_scope.

Inductive res (T : Type) :=
| Ok (x : T)
| ErrDup          (* NotImplementedError: multiple identical requested channels *)
| ErrAssert       (* AssertionError: data.shape[:2] != cols.shape *)
| ErrIndex.       (* IndexError / ValueError raised by a NumPy indexing operation *)
Arguments Ok {T} x.
Arguments ErrDup {T}.
Arguments ErrAssert {T}.
Arguments ErrIndex {T}.

Definition zlen {T} (l : list T) : Z := Z.of_nat (length l).

(* ---------- NumPy primitives ---------- *)

(* a Python index into an axis of length len; None = IndexError *)
Definition norm_idx (len i : Z) : option nat :=
  if (0 <=? i) && (i <? len) then Some (Z.to_nat i)
  else if (- len <=? i) && (i <? 0) then Some (Z.to_nat (i + len))
  else None.

Fixpoint omap {T U} (f : T -> option U) (l : list T) : option (list U) :=
  match l with
  | [] => Some []
  | x :: r => match f x, omap f r with
              | Some y, Some t => Some (y :: t)
              | _, _ => None
              end
  end.

(* a[i] / a[idx] with Python's negative indexing *)
Definition py_get {T} (l : list T) (i : Z) : option T :=
  match norm_idx (zlen l) i with Some p => nth_error l p | None => None end.
Definition py_gather {T} (l : list T) (idx : list Z) : option (list T) := omap (py_get l) idx.

Definition arange (n : nat) : list Z := map Z.of_nat (seq 0 n).

Definition isin (l : list Z) (x : Z) : bool := existsb (Z.eqb x) l.

(* len(l) == len(np.unique(l)) *)
Fixpoint nodupb (l : list Z) : bool :=
  match l with [] => true | x :: r => negb (isin r x) && nodupb r end.

(* np.unique: the sorted set of values (insertion into a strictly increasing list) *)
Fixpoint uinsert (x : Z) (l : list Z) : list Z :=
  match l with
  | [] => [x]
  | y :: r => if x <? y then x :: l else if x =? y then l else y :: uinsert x r
  end.
Definition np_unique (l : list Z) : list Z := fold_right uinsert [] l.
(* np.intersect1d(a, b): sorted values occurring in both *)
Definition intersect1d (a b : list Z) : list Z := np_unique (filter (isin b) a).

(* ---------- phylib.io.array._index_of ---------- *)
Definition zmax1 (l : list Z) : Z := match l with [] => 0 | x :: r => fold_right Z.max x r end.

(* tmp = zeros(m + 1); tmp[-1] = -1; tmp[lookup] = arange(len(lookup))   (m = max(lookup) + 1, or 1) *)
Definition index_table (lookup : list Z) : option (list Z) :=
  let len := zmax1 lookup + 1 + 1 in
  if len <? 0 then None else                               (* np.zeros(negative): ValueError *)
  match norm_idx len (-1), omap (norm_idx len) lookup with
  | Some p, Some ps =>
      Some (scatter (upd (repeat 0 (Z.to_nat len)) p (-1)) (combine ps (arange (length lookup))))
  | _, _ => None                                           (* IndexError *)
  end.

(* tmp[arr] *)
Definition index_of (arr lookup : list Z) : option (list Z) :=
  match index_table lookup with
  | Some tmp => py_gather tmp arr
  | None => None
  end.

(* ---------- from_sparse ---------- *)
Section Cells.
Context {A : Type}.
Variable zero : A.          (* the cell np.zeros gives *)

Fixpoint shape_ok (data : list (list A)) (cols : list (list Z)) : bool :=
  match data, cols with
  | [], [] => true
  | d :: dr, c :: cr => (length d =? length c)%nat && shape_ok dr cr
  | _, _ => false
  end.

(* one spike s:  out[s, cols_loc[s, k], ...] = data[s, k, ...] for k = 0, 1, ... into n + 1 columns
   (performed left to right), then out[s, :-1] *)
Definition fs_row (n : nat) (cl : list Z) (drow : list A) : option (list A) :=
  match omap (norm_idx (Z.of_nat n + 1)) cl with
  | Some ps => Some (firstn n (scatter (repeat zero (S n)) (combine ps drow)))
  | None => None
  end.

Fixpoint fs_rows (n : nat) (cols_loc : list (list Z)) (data : list (list A)) : option (list (list A)) :=
  match cols_loc, data with
  | cl :: cr, d :: dr => match fs_row n cl d, fs_rows n cr dr with
                         | Some o, Some t => Some (o :: t)
                         | _, _ => None
                         end
  | _, _ => Some []
  end.

Definition from_sparse (data : list (list A)) (cols : list (list Z)) (chans : list Z) : res (list (list A)) :=
  if negb (nodupb chans) then ErrDup else                  (* len(channel_ids) != len(np.unique(channel_ids)) *)
  if negb (shape_ok data cols) then ErrAssert else         (* assert data.shape[:2] == cols.shape *)
  (* c[~np.isin(c, channel_ids)] = -1 *)
  let c := map (map (fun x => if isin chans x then x else -1)) cols in
  (* cols_loc = _index_of(c, np.r_[channel_ids, -1]).reshape(cols.shape) *)
  match index_table (chans ++ [-1]) with
  | None => ErrIndex
  | Some tmp =>
      match omap (py_gather tmp) c with
      | None => ErrIndex
      | Some cols_loc =>
          (* out = zeros((n_spikes, n_channels + 1, ...)); out[x, cols_loc, ...] = data; out[:, :-1, ...] *)
          match fs_rows (length chans) cols_loc data with
          | Some out => Ok out
          | None => ErrIndex
          end
      end
  end.

(* ---------- TemplateModel.get_features / get_template_features ---------- *)
Variable nanc : A.          (* the cell of the NaN pre-fill *)

Record store := mkstore {
  st_data : list (list A);            (* (n_rows, n_loc, ...) *)
  st_cols : option (list (list Z));   (* (n_templates, n_loc) column table, None = dense *)
  st_rows : option (list Z)           (* spike ids of the rows, None = one row per spike *)
}.

(* features = empty((ns, n_loc, ...)); features[:] = nan; features[rows_out, ...] = sf.data[rows] *)
Definition fill_rows (st : store) (n_loc : nat) (spike_ids : list Z) : option (list (list A)) :=
  let ns := length spike_ids in
  match st_rows st with
  | Some r =>
      let s := intersect1d spike_ids r in
      match index_of s r, index_of s spike_ids with
      | Some rows, Some rows_out =>
          match py_gather (st_data st) rows, omap (norm_idx (Z.of_nat ns)) rows_out with
          | Some vals, Some ps => Some (scatter (repeat (repeat nanc n_loc) ns) (combine ps vals))
          | _, _ => None
          end
      | _, _ => None
      end
  | None => py_gather (st_data st) spike_ids
  end.

(* cols = sf.cols[self.spike_templates[spike_ids]]  or  tile(arange(n_loc), (ns, 1)) *)
Definition col_rows (st : store) (n_loc : nat) (spike_templates spike_ids : list Z) : option (list (list Z)) :=
  match st_cols st with
  | Some ct => match py_gather spike_templates spike_ids with
               | Some ts => py_gather ct ts
               | None => None
               end
  | None => Some (repeat (arange n_loc) (length spike_ids))
  end.

Definition get_dense (st : store) (n_loc : nat) (spike_templates spike_ids chans : list Z)
  : res (list (list A)) :=
  match fill_rows st n_loc spike_ids, col_rows st n_loc spike_templates spike_ids with
  | Some feats, Some cols => from_sparse feats cols chans
  | _, _ => ErrIndex
  end.

Definition get_features := get_dense.
Definition get_template_features (st : store) (n_loc : nat) (spike_templates spike_ids : list Z)
           (n_templates : nat) := get_dense st n_loc spike_templates spike_ids (arange n_templates).

(* ---------- waveform route of get_features: assembly of the computed rows ---------- *)
(* features = zeros((ns, nc, 3)); exist = intersect1d(spike_ids, stored);
   features[_index_of(exist, spike_ids), ...] = compute_features(get_waveforms(exist, channel_ids)) *)
Definition pca_assemble {B} (zrow : B) (spike_ids stored : list Z)
           (compute : list Z -> option (list B)) : option (list B) :=
  let ns := length spike_ids in
  let exist := intersect1d spike_ids stored in
  match compute exist, index_of exist spike_ids with
  | Some feats, Some ind =>
      match omap (norm_idx (Z.of_nat ns)) ind with
      | Some ps => if (length ps =? length feats)%nat
                   then Some (scatter (repeat zrow ns) (combine ps feats)) else None
      | None => None
      end
  | _, _ => None
  end.
End Cells.

(* pc_features.npy is (n_rows, n_pcs, n_loc) on disk; _load_features transposes it to
   (n_rows, n_loc, n_pcs): cell (row, loc) = the n_pcs values file[row][:, loc] *)
Definition transpose_row {T} (n_loc : nat) (m : list (list T)) : option (list (list T)) :=
  omap (fun k => omap (fun r => nth_error r k) m) (seq 0 n_loc).
Definition load_pc_features {T} (n_loc : nat) (file : list (list (list T))) : option (list (list (list T))) :=
  omap (transpose_row n_loc) file.

(* ---------- _project_pcs: np.einsum('ijk,ljk->lki', pcs, x) ---------- *)
Section Project.
Context {R : Type}.
Variables (radd rmul : R -> R -> R) (rzero : R).

Definition rsum (l : list R) : R := fold_right radd rzero l.
Fixpoint dot (a b : list R) : R :=
  match a, b with
  | x :: a', y :: b' => radd (rmul x y) (dot a' b')
  | _, _ => rzero
  end.
(* column k of a (n_samples, n_channels) matrix; None = out of bounds *)
Definition column (m : list (list R)) (k : nat) : option (list R) := omap (fun r => nth_error r k) m.
Definition is_shape (ns nc : nat) (m : list (list R)) : bool :=
  (length m =? ns)%nat && forallb (fun r => (length r =? nc)%nat) m.

(* pcs : (n_pcs, n_samples, n_channels); x : (n_spikes, n_samples, n_channels);
   result (n_spikes, n_channels, n_pcs); None = ValueError (operands do not match) *)
Definition project (nsamp nc : nat) (pcs x : list (list (list R))) : option (list (list (list R))) :=
  if negb (forallb (is_shape nsamp nc) pcs && forallb (is_shape nsamp nc) x) then None else
  omap (fun xl =>
    omap (fun k =>
      omap (fun pi => match column pi k, column xl k with
                      | Some a, Some b => Some (dot a b)
                      | _, _ => None
                      end) pcs) (seq 0 nc)) x.

(* compute_features(waveforms) = _project_pcs(waveforms, _compute_pcs(waveforms, 3)); the principal
   components are LAPACK's: an oracle.  The assert features.shape == (nspk, nc, 3) needs 3 components. *)
Definition compute_features (pcs_of : list (list (list R)) -> list (list (list R)))
           (nsamp nc : nat) (w : list (list (list R))) : option (list (list (list R))) :=
  let pcs := pcs_of w in
  if negb (length pcs =? 3)%nat then None else project nsamp nc pcs w.
End Project.

(* ---------- stage 3 additions ---------- *)

(* dtype of the lookup table of _index_of.  [tmp = np.zeros(m + 1, dtype=int)] holds the positions
   0 .. len(lookup)-1 and the -1 of its last cell; with a narrower integer dtype the values assigned to
   the table are cast (wrap-around of a two's-complement type of [bits] bits).  [index_of_dt id] is
   [index_of]; C06_index_of_dtype states when a narrower table is harmless. *)
Definition wrap (bits : Z) (x : Z) : Z := (x + 2 ^ (bits - 1)) mod 2 ^ bits - 2 ^ (bits - 1).

Definition index_table_dt (cast : Z -> Z) (lookup : list Z) : option (list Z) :=
  let len := zmax1 lookup + 1 + 1 in
  if len <? 0 then None else
  match norm_idx len (-1), omap (norm_idx len) lookup with
  | Some p, Some ps =>
      Some (scatter (upd (repeat 0 (Z.to_nat len)) p (cast (-1))) (combine ps (map cast (arange (length lookup)))))
  | _, _ => None
  end.
Definition index_of_dt (cast : Z -> Z) (arr lookup : list Z) : option (list Z) :=
  match index_table_dt cast lookup with
  | Some tmp => py_gather tmp arr
  | None => None
  end.

(* A session on ONE model object: the two accessors called any number of times, in any order.  The
   accessors read self.sparse_features / self.sparse_template_features / self.spike_templates and write
   nothing, so the answer to a call is a function of the dataset and of that call alone. *)
Section Session.
Context {A : Type}.
Variables (zero nanc : A).

Inductive call :=
| CallF (ids chans : list Z)        (* m.get_features(ids, chans) *)
| CallT (ids : list Z).             (* m.get_template_features(ids) *)

Record dataset := mkdataset {
  ds_f : option (@store A * nat);     (* pc feature store and its n_loc; None = no pc_features.npy *)
  ds_t : option (@store A * nat);     (* template feature store; None = no template_features.npy *)
  ds_stpl : list Z;                   (* spike_templates *)
  ds_nt : nat                         (* n_templates *)
}.

(* None = the accessor returns Python's None (no such store) *)
Definition answer (ds : dataset) (c : call) : option (res (list (list A))) :=
  match c with
  | CallF ids chans =>
      match ds_f ds with
      | Some (st, n_loc) => Some (get_features zero nanc st n_loc (ds_stpl ds) ids chans)
      | None => None
      end
  | CallT ids =>
      match ds_t ds with
      | Some (st, n_loc) => Some (get_template_features zero nanc st n_loc (ds_stpl ds) ids (ds_nt ds))
      | None => None
      end
  end.
Definition session (ds : dataset) (calls : list call) : list (option (res (list (list A)))) :=
  map (answer ds) calls.
End Session.
